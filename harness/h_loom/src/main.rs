//! C20 — exhaustive interleaving exploration (loom) of the repository's own
//! `src/media/spsc.rs` and `src/media/track.rs`, included textually with the primitives
//! they use shadowed by loom-backed equivalents.
//!
//!   h_loom driver [--tier quick|thorough]      run every model in a subprocess, write evidence
//!   h_loom model <name> [pb] [checkpoint]      run one model in this process
#![allow(dead_code, unused_imports, unused_variables, clippy::all)]

mod shim;
mod errors {
    include!("/repo/src/errors.rs");
}
mod rtp {
    include!("/repo/src/rtp.rs");
}
mod transports {
    pub mod ice {
        pub mod stun {
            pub fn random_u64() -> u64 {
                7
            }
        }
    }
}
mod media {
    pub mod error {
        include!("/repo/src/media/error.rs");
    }
    pub mod frame {
        include!("/repo/src/media/frame.rs");
    }
    pub mod spsc {
        mod std {
            pub use ::std::*;
            pub mod cell {
                pub use crate::shim::UnsafeCell;
            }
            pub mod sync {
                pub use ::std::sync::*;
                pub mod atomic {
                    pub use loom::sync::atomic::*;
                }
            }
        }
        include!("/repo/src/media/spsc.rs");
    }
    pub mod track {
        mod std {
            pub use ::std::*;
            pub mod sync {
                pub use ::std::sync::*;
                pub mod atomic {
                    pub use loom::sync::atomic::*;
                }
            }
        }
        mod parking_lot {
            pub use crate::shim::Mutex;
        }
        mod tokio {
            pub use ::tokio::*;
            pub mod sync {
                pub use crate::shim::Notify;
                pub use ::tokio::sync::*;
            }
        }
        include!("/repo/src/media/track.rs");

        // Observation only (no logic): lets the oracle see what is still queued.
        impl SampleStreamTrack {
            pub fn verif_queue_len(&self) -> usize {
                self.queue.len()
            }
        }
    }
}

use media::error::MediaError;
use media::frame::{AudioFrame, MediaKind, MediaSample};
use media::spsc::SpscRing;
use media::track::{MediaStreamTrack, SampleStreamSource, SampleStreamTrack, sample_track};
use ::std::collections::BTreeSet;
use ::std::sync::atomic::{AtomicU64, AtomicUsize, Ordering as O};
use ::std::sync::{Arc, Mutex as StdMutex};
use ::std::time::{Duration, Instant};

static SCHEDULES: AtomicU64 = AtomicU64::new(0);
static OUTCOMES: StdMutex<BTreeSet<String>> = StdMutex::new(BTreeSet::new());

fn outcome(s: String) {
    OUTCOMES.lock().unwrap().insert(s);
}

fn mk(id: u32) -> MediaSample {
    MediaSample::Audio(AudioFrame {
        rtp_timestamp: id,
        clock_rate: 8000,
        data: bytes::Bytes::from_static(b"0123456789abcdef"),
        sequence_number: Some(id as u16),
        payload_type: Some(0),
        marker: id % 2 == 1,
        ..Default::default()
    })
}

fn id_of(s: &MediaSample) -> u32 {
    match s {
        MediaSample::Audio(f) => f.rtp_timestamp,
        MediaSample::Video(f) => f.rtp_timestamp,
    }
}

/// Drain the track until end-of-stream; every received sample must be bit-identical to the
/// sample pushed under that id.
fn consume_until_eos(track: &Arc<SampleStreamTrack>) -> Vec<u32> {
    let mut got = vec![];
    loop {
        match loom::future::block_on(track.recv()) {
            Ok(s) => {
                let id = id_of(&s);
                assert!(s == mk(id), "ORACLE: received sample differs from the pushed sample id={id}");
                got.push(id);
                assert!(got.len() <= 64, "ORACLE: fabricated samples");
            }
            Err(MediaError::EndOfStream) => break,
            Err(e) => panic!("ORACLE: unexpected recv error {e:?}"),
        }
    }
    got
}

/// Producer ids are p*100 + k; per-producer order and no duplicates.
fn check_order(got: &[u32], what: &str) {
    let mut seen = BTreeSet::new();
    let mut last: ::std::collections::BTreeMap<u32, u32> = Default::default();
    for id in got {
        assert!(seen.insert(*id), "ORACLE: sample {id} received twice ({what}) got={got:?}");
        let p = id / 100;
        if let Some(prev) = last.get(&p) {
            assert!(prev < id, "ORACLE: producer {p} order violated ({what}) got={got:?}");
        }
        last.insert(p, *id);
    }
}

fn after_eos(track: &Arc<SampleStreamTrack>, got: &[u32]) {
    assert!(
        track.verif_queue_len() == 0,
        "ORACLE: end-of-stream reported with {} sample(s) still queued; got={got:?}",
        track.verif_queue_len()
    );
    match loom::future::block_on(track.recv()) {
        Err(MediaError::EndOfStream) => {}
        other => panic!("ORACLE: recv after end-of-stream returned {other:?}"),
    }
}

#[derive(Clone, Copy)]
enum SendKind {
    Send,
    TrySend,
    SendMany,
}

fn do_sends(src: &SampleStreamSource, p: u32, n: u32, kind: SendKind) -> Vec<u32> {
    // returns ids accepted (Ok) by the API
    let mut ok = vec![];
    match kind {
        SendKind::Send => {
            for k in 0..n {
                if src.send(mk(p * 100 + k)).is_ok() {
                    ok.push(p * 100 + k);
                }
            }
        }
        SendKind::TrySend => {
            for k in 0..n {
                if src.try_send(mk(p * 100 + k)).is_ok() {
                    ok.push(p * 100 + k);
                }
            }
        }
        SendKind::SendMany => {
            if src.send_many((0..n).map(|k| mk(p * 100 + k))).is_ok() {
                ok.extend((0..n).map(|k| p * 100 + k));
            }
        }
    }
    ok
}

// ---------------------------------------------------------------- ring-level models

struct Tok {
    id: usize,
    drops: Arc<Vec<AtomicUsize>>,
}
impl Drop for Tok {
    fn drop(&mut self) {
        self.drops[self.id].fetch_add(1, O::SeqCst);
    }
}

/// SPSC contract: one producer pushes n tokens, one consumer pops n.
fn ring_spsc(cap: usize, n: usize) {
    let drops: Arc<Vec<AtomicUsize>> = Arc::new((0..n).map(|_| AtomicUsize::new(0)).collect());
    let ring = Arc::new(SpscRing::<Tok>::with_capacity(cap));
    let r1 = ring.clone();
    let d1 = drops.clone();
    let prod = loom::thread::spawn(move || {
        for i in 0..n {
            let mut t = Tok { id: i, drops: d1.clone() };
            loop {
                match r1.push(t) {
                    Ok(()) => break,
                    Err(back) => {
                        t = back;
                        loom::thread::yield_now();
                    }
                }
            }
        }
    });
    let r2 = ring.clone();
    let cons = loom::thread::spawn(move || {
        let mut got = vec![];
        while got.len() < n {
            match r2.pop() {
                Some(t) => got.push(t.id),
                None => loom::thread::yield_now(),
            }
        }
        got
    });
    prod.join().unwrap();
    let got = cons.join().unwrap();
    assert!(got == (0..n).collect::<Vec<_>>(), "ORACLE: ring FIFO violated got={got:?}");
    assert!(ring.pop().is_none(), "ORACLE: ring not empty after n pops");
    drop(ring);
    for (i, d) in drops.iter().enumerate() {
        assert!(d.load(O::SeqCst) == 1, "ORACLE: token {i} dropped {} times", d.load(O::SeqCst));
    }
    outcome(format!("{got:?}"));
}

/// Producer pushes n (some may be refused when full), consumer pops k times, ring dropped
/// afterwards: every token is dropped exactly once (no leak, no double drop).
fn ring_drop(cap: usize, n: usize, k: usize) {
    let drops: Arc<Vec<AtomicUsize>> = Arc::new((0..n).map(|_| AtomicUsize::new(0)).collect());
    let ring = Arc::new(SpscRing::<Tok>::with_capacity(cap));
    let r1 = ring.clone();
    let d1 = drops.clone();
    let prod = loom::thread::spawn(move || {
        let mut refused = vec![];
        for i in 0..n {
            if let Err(t) = r1.push(Tok { id: i, drops: d1.clone() }) {
                refused.push(t.id);
            }
        }
        refused
    });
    let r2 = ring.clone();
    let cons = loom::thread::spawn(move || {
        let mut got = vec![];
        for _ in 0..k {
            if let Some(t) = r2.pop() {
                got.push(t.id);
            }
        }
        got
    });
    let refused = prod.join().unwrap();
    let got = cons.join().unwrap();
    let mut prev = None;
    for g in &got {
        assert!(prev.map_or(true, |p| p < *g), "ORACLE: ring order violated got={got:?}");
        assert!(!refused.contains(g), "ORACLE: refused token {g} was received");
        prev = Some(*g);
    }
    let len = ring.len();
    assert!(len + got.len() + refused.len() == n, "ORACLE: accounting len={len} got={got:?} refused={refused:?}");
    drop(ring);
    for (i, d) in drops.iter().enumerate() {
        assert!(d.load(O::SeqCst) == 1, "ORACLE: token {i} dropped {} times", d.load(O::SeqCst));
    }
    outcome(format!("got={got:?} refused={refused:?}"));
}

// ---------------------------------------------------------------- track-level models

/// `producers` threads, each with its own clone of the source (or all sharing one source),
/// each sending `n` samples and then releasing its handle; one consumer drains to EOS.
fn track_producers(cap: usize, producers: u32, n: u32, shared: bool, kind: SendKind) {
    let (source, track, _fb) = sample_track(MediaKind::Audio, cap);
    let mut handles = vec![];
    if shared {
        let src = Arc::new(source);
        for p in 0..producers {
            let s = src.clone();
            handles.push(loom::thread::spawn(move || {
                let ok = do_sends(&s, p, n, kind);
                drop(s);
                ok
            }));
        }
        drop(src);
    } else {
        let mut srcs = vec![];
        for _ in 1..producers {
            srcs.push(source.clone());
        }
        srcs.push(source);
        for (p, s) in srcs.into_iter().enumerate() {
            handles.push(loom::thread::spawn(move || {
                let ok = do_sends(&s, p as u32, n, kind);
                drop(s);
                ok
            }));
        }
    }
    let t = track.clone();
    let cons = loom::thread::spawn(move || {
        let got = consume_until_eos(&t);
        after_eos(&t, &got);
        got
    });
    let mut accepted = vec![];
    for h in handles {
        accepted.extend(h.join().unwrap());
    }
    let got = cons.join().unwrap();
    check_order(&got, "track_producers");
    for id in &got {
        assert!(accepted.contains(id), "ORACLE: received {id} which no producer had accepted");
    }
    let total = (producers * n) as usize;
    if matches!(kind, SendKind::TrySend) {
        // try_send never discards: everything accepted must be received.
        assert!(got.len() == accepted.len(), "ORACLE: accepted {accepted:?} but received {got:?}");
    } else if cap >= total {
        // no overflow possible: nothing may be lost, so a premature end-of-stream shows here
        assert!(got.len() == total, "ORACLE: no overflow possible, pushed {total}, received {got:?}");
    }
    outcome(format!("{got:?}"));
}

/// stop() racing with a parked/arriving consumer: recv must return end-of-stream.
fn track_stop(presend: u32) {
    let (source, track, _fb) = sample_track(MediaKind::Audio, 2);
    for k in 0..presend {
        source.send(mk(k)).unwrap();
    }
    let t1 = track.clone();
    let stopper = loom::thread::spawn(move || {
        t1.stop();
    });
    let t2 = track.clone();
    let cons = loom::thread::spawn(move || {
        let mut got = vec![];
        loop {
            match loom::future::block_on(t2.recv()) {
                Ok(s) => got.push(id_of(&s)),
                Err(MediaError::EndOfStream) => break,
                Err(e) => panic!("ORACLE: unexpected recv error {e:?}"),
            }
            assert!(got.len() <= 8, "ORACLE: fabricated samples");
        }
        got
    });
    stopper.join().unwrap();
    let got = cons.join().unwrap();
    check_order(&got, "track_stop");
    assert!(got.len() <= presend as usize, "ORACLE: fabricated samples {got:?}");
    drop(source);
    outcome(format!("{got:?}"));
}

/// A clone is created and released while the original sends and is released: the stream
/// closes only when the last handle goes, and everything sent before that is drained.
fn track_clone_drop() {
    let (source, track, _fb) = sample_track(MediaKind::Audio, 4);
    let a = loom::thread::spawn(move || {
        let c = source.clone();
        let ok1 = source.send(mk(0)).is_ok();
        drop(source);
        let ok2 = c.send(mk(1)).is_ok();
        drop(c);
        (ok1, ok2)
    });
    let t = track.clone();
    let cons = loom::thread::spawn(move || {
        let got = consume_until_eos(&t);
        after_eos(&t, &got);
        got
    });
    let (ok1, ok2) = a.join().unwrap();
    let got = cons.join().unwrap();
    assert!(ok1 && ok2, "ORACLE: send refused while a handle was alive ({ok1},{ok2})");
    assert!(got == vec![0, 1], "ORACLE: expected [0,1] before end-of-stream, got {got:?}");
    outcome(format!("{got:?}"));
}

/// Producers only (no concurrent consumer): `kinds.len()` threads race on the producer side —
/// push_lock, the drop-oldest path and try_send's refusal — and the main thread drains to
/// end-of-stream after joining them. Without the consumer thread the interleaving space is
/// small enough to explore without a schedule cap.
fn track_producers_only(cap: usize, n: u32, shared: bool, kinds: &[SendKind]) {
    let (source, track, _fb) = sample_track(MediaKind::Audio, cap);
    let mut handles = vec![];
    if shared {
        let src = Arc::new(source);
        for (p, kind) in kinds.iter().copied().enumerate() {
            let s = src.clone();
            handles.push(loom::thread::spawn(move || {
                let ok = do_sends(&s, p as u32, n, kind);
                drop(s);
                ok
            }));
        }
        drop(src);
    } else {
        let mut srcs = vec![];
        for _ in 1..kinds.len() {
            srcs.push(source.clone());
        }
        srcs.push(source);
        for ((p, s), kind) in srcs.into_iter().enumerate().zip(kinds.iter().copied()) {
            handles.push(loom::thread::spawn(move || {
                let ok = do_sends(&s, p as u32, n, kind);
                drop(s);
                ok
            }));
        }
    }
    let mut accepted = vec![];
    for h in handles {
        accepted.extend(h.join().unwrap());
    }
    let got = consume_until_eos(&track);
    after_eos(&track, &got);
    check_order(&got, "track_producers_only");
    for id in &got {
        assert!(accepted.contains(id), "ORACLE: received {id} which no producer had accepted");
    }
    let total = kinds.len() * n as usize;
    let may_discard = kinds.iter().any(|k| !matches!(k, SendKind::TrySend));
    if !may_discard {
        assert!(got.len() == accepted.len(), "ORACLE: accepted {accepted:?} but received {got:?}");
        // nothing is consumed meanwhile: exactly min(cap, total) are accepted
        assert!(accepted.len() == total.min(cap), "ORACLE: accepted {accepted:?}, expected {} of {total} (cap {cap})", total.min(cap));
    } else if cap >= total {
        assert!(got.len() == total, "ORACLE: no overflow possible, pushed {total}, received {got:?}");
    } else {
        // drop-oldest keeps the queue full: exactly cap samples survive unless a try_send was refused
        let refused = total - accepted.len();
        assert!(got.len() + refused >= cap.min(total - refused) , "ORACLE: accepted {accepted:?} but only {got:?} survived (cap {cap})");
    }
    outcome(format!("{got:?}"));
}

// ---------------------------------------------------------------- model table

struct ModelSpec {
    name: &'static str,
    /// preemption bound for quick / thorough (None = unbounded DPOR)
    pb_quick: Option<usize>,
    pb_thorough: Option<usize>,
    thorough_only: bool,
    what: &'static str,
    run: fn(),
}

fn models() -> Vec<ModelSpec> {
    use SendKind::*;
    vec![
        ModelSpec { name: "ring_spsc_c1_n3", pb_quick: None, pb_thorough: None, thorough_only: false,
            what: "ring cap1: producer pushes 3 / consumer pops 3", run: || ring_spsc(1, 3) },
        ModelSpec { name: "ring_spsc_c2_n3", pb_quick: None, pb_thorough: None, thorough_only: false,
            what: "ring cap2: producer pushes 3 / consumer pops 3", run: || ring_spsc(2, 3) },
        ModelSpec { name: "ring_spsc_c2_n5", pb_quick: Some(3), pb_thorough: None, thorough_only: false,
            what: "ring cap2: 5 pushes / 5 pops (index wrap twice)", run: || ring_spsc(2, 5) },
        ModelSpec { name: "ring_spsc_c3_n7", pb_quick: Some(2), pb_thorough: Some(4), thorough_only: true,
            what: "ring cap3: 7 pushes / 7 pops", run: || ring_spsc(3, 7) },
        ModelSpec { name: "ring_drop_c2_n3_k1", pb_quick: None, pb_thorough: None, thorough_only: false,
            what: "ring cap2: 3 pushes (refusals allowed), 1 pop, ring dropped with queued tokens", run: || ring_drop(2, 3, 1) },
        ModelSpec { name: "ring_drop_c4_n4_k2", pb_quick: None, pb_thorough: None, thorough_only: false,
            what: "ring cap4: 4 pushes, 2 pops, drop", run: || ring_drop(4, 4, 2) },
        ModelSpec { name: "track_1p_c2_n2", pb_quick: Some(5), pb_thorough: Some(7), thorough_only: false,
            what: "1 producer sends 2 into cap 2 then drops source || consumer drains to EOS (no overflow: must receive both)", run: || track_producers(2, 1, 2, false, Send) },
        ModelSpec { name: "track_1p_c2_n3_overflow", pb_quick: Some(4), pb_thorough: Some(6), thorough_only: false,
            what: "1 producer sends 3 into cap 2 (drop-oldest under pop_lock) || consumer", run: || track_producers(2, 1, 3, false, Send) },
        ModelSpec { name: "track_1p_c1_n2_overflow", pb_quick: Some(5), pb_thorough: Some(7), thorough_only: false,
            what: "1 producer sends 2 into cap 1 (drop-oldest) || consumer", run: || track_producers(1, 1, 2, false, Send) },
        ModelSpec { name: "track_1p_try_send_c1_n2", pb_quick: Some(5), pb_thorough: Some(7), thorough_only: false,
            what: "1 producer try_send x2 into cap 1 || consumer (WouldBlock allowed, accepted must arrive)", run: || track_producers(1, 1, 2, false, TrySend) },
        ModelSpec { name: "track_1p_send_many_c2_n2", pb_quick: Some(5), pb_thorough: Some(7), thorough_only: false,
            what: "1 producer send_many(2) into cap 2 || consumer", run: || track_producers(2, 1, 2, false, SendMany) },
        ModelSpec { name: "track_2p_shared_c2_n1", pb_quick: Some(3), pb_thorough: Some(5), thorough_only: false,
            what: "2 threads send 1 each through one shared source (cap 2) || consumer", run: || track_producers(2, 2, 1, true, Send) },
        ModelSpec { name: "track_2p_clones_c2_n1", pb_quick: Some(3), pb_thorough: Some(5), thorough_only: false,
            what: "2 threads send 1 each through clones (cap 2) || consumer", run: || track_producers(2, 2, 1, false, Send) },
        ModelSpec { name: "track_2p_clones_c1_n1_overflow", pb_quick: Some(3), pb_thorough: Some(5), thorough_only: false,
            what: "2 cloned producers send 1 each into cap 1 (drop-oldest races) || consumer", run: || track_producers(1, 2, 1, false, Send) },
        ModelSpec { name: "track_2p_try_send_c2_n1", pb_quick: Some(3), pb_thorough: Some(5), thorough_only: false,
            what: "2 cloned producers try_send 1 each (cap 2) || consumer", run: || track_producers(2, 2, 1, false, TrySend) },
        ModelSpec { name: "track_2p_clones_c4_n2", pb_quick: Some(2), pb_thorough: Some(4), thorough_only: false,
            what: "2 cloned producers send 2 each (cap 4, no overflow: all 4 must arrive in per-producer order) || consumer", run: || track_producers(4, 2, 2, false, Send) },
        ModelSpec { name: "track_3p_clones_c4_n1", pb_quick: Some(2), pb_thorough: Some(3), thorough_only: true,
            what: "3 cloned producers send 1 each (cap 4) || consumer", run: || track_producers(4, 3, 1, false, Send) },
        ModelSpec { name: "track_2p_send_many_c4_n2", pb_quick: Some(2), pb_thorough: Some(3), thorough_only: true,
            what: "2 cloned producers send_many(2) (cap 4) || consumer", run: || track_producers(4, 2, 2, false, SendMany) },
        ModelSpec { name: "track_2p_only_try_send_c2_n1", pb_quick: None, pb_thorough: None, thorough_only: false,
            what: "2 cloned producers try_send 1 each (cap 2), drained after join: both accepted, both received", run: || track_producers_only(2, 1, false, &[TrySend, TrySend]) },
        ModelSpec { name: "track_2p_only_try_send_shared_c1_n1", pb_quick: None, pb_thorough: None, thorough_only: false,
            what: "2 threads try_send 1 each through one shared source (cap 1): exactly one accepted", run: || track_producers_only(1, 1, true, &[TrySend, TrySend]) },
        ModelSpec { name: "track_2p_only_mixed_c2_n1", pb_quick: None, pb_thorough: None, thorough_only: false,
            what: "send || try_send (cap 2), drained after join", run: || track_producers_only(2, 1, false, &[Send, TrySend]) },
        ModelSpec { name: "track_2p_only_send_c1_n1_overflow", pb_quick: None, pb_thorough: None, thorough_only: false,
            what: "send || send into cap 1 (two drop-oldest paths race), drained after join", run: || track_producers_only(1, 1, false, &[Send, Send]) },
        ModelSpec { name: "track_2p_only_try_send_c4_n2", pb_quick: None, pb_thorough: None, thorough_only: false,
            what: "2 cloned producers try_send 2 each (cap 4), drained after join", run: || track_producers_only(4, 2, false, &[TrySend, TrySend]) },
        ModelSpec { name: "track_2p_only_send_many_vs_try_c2_n2", pb_quick: None, pb_thorough: None, thorough_only: false,
            what: "send_many(2) || try_send x2 into cap 2 (overflow), drained after join", run: || track_producers_only(2, 2, false, &[SendMany, TrySend]) },
        ModelSpec { name: "track_3p_only_try_send_c4_n1", pb_quick: None, pb_thorough: None, thorough_only: false,
            what: "3 cloned producers try_send 1 each (cap 4), drained after join", run: || track_producers_only(4, 1, false, &[TrySend, TrySend, TrySend]) },
        ModelSpec { name: "track_4p_only_mixed_c2_n1", pb_quick: Some(2), pb_thorough: Some(4), thorough_only: true,
            what: "4 producers (send, try_send, send_many, send) 1 each into cap 2, drained after join", run: || track_producers_only(2, 1, false, &[Send, TrySend, SendMany, Send]) },
        ModelSpec { name: "track_stop_empty", pb_quick: None, pb_thorough: None, thorough_only: false,
            what: "stop() || recv on an empty live track: recv must return EOS (no lost wake-up)", run: || track_stop(0) },
        ModelSpec { name: "track_stop_presend1", pb_quick: None, pb_thorough: None, thorough_only: false,
            what: "stop() || recv loop with one queued sample", run: || track_stop(1) },
        ModelSpec { name: "track_clone_drop", pb_quick: Some(5), pb_thorough: Some(7), thorough_only: false,
            what: "clone, send on original, drop original, send on clone, drop clone || consumer: [0,1] then EOS", run: track_clone_drop },
    ]
}

fn run_model(name: &str, pb: Option<usize>, checkpoint: Option<String>, cap_s: u64) {
    let spec = models().into_iter().find(|m| m.name == name).unwrap_or_else(|| {
        eprintln!("unknown model {name}");
        ::std::process::exit(2)
    });
    let mut b = loom::model::Builder::new();
    b.preemption_bound = pb;
    b.max_branches = 200_000;
    b.max_duration = Some(Duration::from_secs(cap_s));
    if let Some(c) = checkpoint {
        b.checkpoint_file = Some(c.into());
        b.checkpoint_interval = 1;
    }
    let start = Instant::now();
    let f = spec.run;
    b.check(move || {
        SCHEDULES.fetch_add(1, O::Relaxed);
        f();
    });
    let el = start.elapsed();
    let capped = el >= Duration::from_secs(cap_s);
    let outs: Vec<String> = OUTCOMES.lock().unwrap().iter().cloned().collect();
    println!(
        "RESULT {}",
        serde_json::json!({
            "model": name, "schedules": SCHEDULES.load(O::Relaxed), "distinct_outcomes": outs.len(),
            "outcomes_sample": outs.iter().take(6).collect::<Vec<_>>(),
            "preemption_bound": pb, "capped": capped, "wall_s": el.as_secs_f64(),
        })
    );
}

fn classify(stderr: &str) -> (String, String) {
    let line = |pat: &str| stderr.lines().find(|l| l.contains(pat)).map(|l| l.trim().to_string());
    if let Some(l) = line("Causality violation") {
        return ("data_race".into(), l);
    }
    if let Some(l) = line("ORACLE:") {
        let msg = l.split("ORACLE:").nth(1).unwrap_or("").trim();
        let kind = if msg.contains("still queued") || msg.contains("no overflow possible") || msg.contains("expected [0,1]") || msg.contains("accepted") {
            "premature_eos_or_loss"
        } else if msg.contains("twice") {
            "duplicate"
        } else if msg.contains("order") || msg.contains("FIFO") {
            "reorder"
        } else if msg.contains("dropped") {
            "leak_or_double_drop"
        } else {
            "oracle"
        };
        return (kind.into(), msg.to_string());
    }
    if let Some(l) = line("deadlock") {
        return ("deadlock".into(), l);
    }
    let l = stderr.lines().find(|l| l.contains("panicked")).unwrap_or("").to_string();
    ("panic".into(), l)
}

fn driver() {
    let cli = vcore::cli();
    let mut rep = vcore::Report::new("C20", &cli, "model_checking");
    let exe = ::std::env::current_exe().unwrap();
    let specs = models();
    let per_model_cap: u64 = cli.tier.pick(40, 1500);
    let selected: Vec<&ModelSpec> = specs
        .iter()
        .filter(|m| cli.tier == vcore::Tier::Thorough || !m.thorough_only)
        .filter(|m| cli.rest.len() < 2 || cli.rest[1..].iter().any(|n| n == m.name))
        .collect();
    let results: Vec<(String, Option<usize>, ::std::process::Output)> = {
        // run models in parallel subprocesses (a loom failure may abort the process)
        let par = 24usize;
        let mut out = vec![];
        for chunk in selected.chunks(par) {
            let mut kids = vec![];
            for m in chunk {
                let pb = cli.tier.pick(m.pb_quick, m.pb_thorough);
                let child = ::std::process::Command::new(&exe)
                    .arg("model")
                    .arg(m.name)
                    .arg(pb.map(|p| p.to_string()).unwrap_or("none".into()))
                    .arg("-")
                    .arg(per_model_cap.to_string())
                    .stdout(::std::process::Stdio::piped())
                    .stderr(::std::process::Stdio::piped())
                    .spawn()
                    .unwrap_or_else(|e| vcore::machinery_failure(&format!("spawn: {e}")));
                kids.push((m.name.to_string(), pb, child));
            }
            for (n, pb, k) in kids {
                out.push((n, pb, k.wait_with_output().unwrap()));
            }
        }
        out
    };
    let mut total_sched = 0u64;
    let mut total_outcomes = 0u64;
    let mut per_model = vec![];
    for (name, pb, o) in results {
        let stdout = String::from_utf8_lossy(&o.stdout).to_string();
        let stderr = String::from_utf8_lossy(&o.stderr).to_string();
        let what = specs.iter().find(|m| m.name == name).unwrap().what;
        if let Some(l) = stdout.lines().find(|l| l.starts_with("RESULT ")) {
            if o.status.success() {
                let v: serde_json::Value = serde_json::from_str(&l[7..]).unwrap();
                total_sched += v["schedules"].as_u64().unwrap_or(0);
                total_outcomes += v["distinct_outcomes"].as_u64().unwrap_or(0);
                let mut v2 = v.clone();
                v2["what"] = serde_json::json!(what);
                println!("  ok   {name}: schedules={} outcomes={} pb={:?} capped={} {:.1}s", v["schedules"], v["distinct_outcomes"], pb, v["capped"], v["wall_s"].as_f64().unwrap_or(0.0));
                rep.sample(v2.clone());
                per_model.push(v2);
                continue;
            }
        }
        // failure: classify, and re-run with a checkpoint file so the failing schedule is replayable
        let (kind, msg) = classify(&stderr);
        if kind == "panic" && msg.is_empty() {
            vcore::machinery_failure(&format!("model {name} died without a verdict: status={:?} stderr tail={}", o.status, vcore::truncate(&stderr[stderr.len().saturating_sub(800)..], 800)));
        }
        println!("  FAIL {name}: {kind}: {msg}");
        let dir = vcore::verif_root().join("replays").join("C20");
        let _ = ::std::fs::create_dir_all(&dir);
        let ck = dir.join(format!("{name}.loom-checkpoint.json"));
        let _ = ::std::fs::remove_file(&ck);
        let o2 = ::std::process::Command::new(&exe)
            .arg("model").arg(&name).arg(pb.map(|p| p.to_string()).unwrap_or("none".into()))
            .arg(&ck).arg(per_model_cap.to_string()).output().unwrap();
        let (kind2, _) = classify(&String::from_utf8_lossy(&o2.stderr));
        // The re-run (with a checkpoint file) explores the same space; it must fail again. Which
        // failure surfaces first may differ (a lost sample can show as a premature end-of-stream in
        // one schedule and as an oracle panic in another): a second FAILURE reproduces the verdict,
        // only a second run that PASSES would make the first one untrustworthy.
        if o2.status.success() {
            vcore::machinery_failure(&format!("model {name}: verdict not reproducible ({kind}, then the same exploration passed)"));
        }
        let msg = if kind2 != kind { format!("{msg} [the replay run failed as {kind2}]") } else { msg };
        per_model.push(serde_json::json!({"model": name, "failed": kind, "message": msg, "what": what}));
        rep.violation(vcore::Violation {
            signature: format!("model={name};kind={kind}"),
            detail: format!("{what}: {msg}"),
            replay: serde_json::json!({"model": name, "preemption_bound": pb, "loom_checkpoint": ck.display().to_string(),
                "cmd": format!("/verif/target/release/h_loom model {name} {} {}", pb.map(|p| p.to_string()).unwrap_or("none".into()), ck.display())}),
        });
    }
    let capped: Vec<_> = per_model.iter().filter(|v| v["capped"] == true).map(|v| v["model"].clone()).collect();
    rep.set("states", total_sched);
    rep.set("transitions", total_sched);
    rep.set("traces_validated_against_impl", total_sched);
    rep.set("evaluations", total_sched);
    rep.set("distinct_nontrivial", total_outcomes);
    rep.set("rule", "loom DPOR over the repository's spsc.rs/track.rs source; states/transitions = complete interleavings (schedules) executed, each checked by the oracle; distinct_nontrivial = sum over models of distinct consumer-observed outcomes");
    rep.set("models", serde_json::json!(per_model));
    rep.set("models_capped_by_time", serde_json::json!(capped));
    rep.set("exhaustive", capped.is_empty());
    rep.assume("loom's C11 memory model and scheduler; Arc reference counts are std (destruction ordered by joins in the harness)");
    rep.assume("tokio::sync::Notify replaced by a shim with tokio's documented semantics (permit for notify_one, creation-time registration for notify_waiters)");
    if total_sched < 2 || (rep.violation_count() == 0 && total_outcomes < 2) {
        vcore::machinery_failure("vacuous exploration: fewer than 2 schedules or outcomes");
    }
    ::std::process::exit(rep.finish());
}

fn main() {
    let args: Vec<String> = ::std::env::args().collect();
    match args.get(1).map(|s| s.as_str()) {
        Some("model") => {
            let name = &args[2];
            let pb = args.get(3).and_then(|s| s.parse::<usize>().ok());
            let ck = args.get(4).filter(|s| s.as_str() != "-").cloned();
            let cap = args.get(5).and_then(|s| s.parse::<u64>().ok()).unwrap_or(600);
            run_model(name, pb, ck, cap);
        }
        Some("list") => {
            for m in models() {
                println!("{}\t{}", m.name, m.what);
            }
        }
        _ => driver(),
    }
}
