//! Shared machinery: CLI, evidence writer, known-findings matcher, verdict reporting.
//!
//! Exit codes: 0 = property held on everything explored (known findings are printed as
//! `KNOWN-FINDING:` lines), 1 = at least one violation not listed in known_findings.json
//! (`VIOLATION property=<id> replay=<path>`), 2 = machinery failure (never a verdict).
use serde_json::{Value, json};
use std::collections::BTreeMap;
use std::path::PathBuf;
use std::time::Instant;

pub mod explore;

pub fn verif_root() -> PathBuf {
    PathBuf::from(std::env::var("VERIF_ROOT").unwrap_or_else(|_| "/verif".into()))
}

#[derive(Clone, Copy, Debug, PartialEq, Eq)]
pub enum Tier {
    Quick,
    Thorough,
}

impl Tier {
    pub fn name(self) -> &'static str {
        match self {
            Tier::Quick => "quick",
            Tier::Thorough => "thorough",
        }
    }
    pub fn pick<T>(self, q: T, t: T) -> T {
        match self {
            Tier::Quick => q,
            Tier::Thorough => t,
        }
    }
}

#[derive(Clone, Debug)]
pub struct Cli {
    pub tier: Tier,
    pub seed: u64,
    pub replay: Option<PathBuf>,
    pub rest: Vec<String>,
}

pub fn cli() -> Cli {
    let mut tier = match std::env::var("VERIF_TIER").ok().as_deref() {
        Some("thorough") => Tier::Thorough,
        _ => Tier::Quick,
    };
    let seed = std::env::var("VERIF_SEED")
        .ok()
        .and_then(|s| s.parse::<u64>().ok())
        .unwrap_or(0);
    let mut replay = None;
    let mut rest = vec![];
    let mut args = std::env::args().skip(1);
    while let Some(a) = args.next() {
        match a.as_str() {
            "--tier" => {
                tier = match args.next().as_deref() {
                    Some("thorough") => Tier::Thorough,
                    Some("quick") => Tier::Quick,
                    other => machinery_failure(&format!("bad --tier {other:?}")),
                }
            }
            "--replay" => {
                replay = Some(PathBuf::from(
                    args.next().unwrap_or_else(|| machinery_failure("--replay needs a file")),
                ))
            }
            _ => rest.push(a),
        }
    }
    Cli { tier, seed, replay, rest }
}

pub fn machinery_failure(msg: &str) -> ! {
    eprintln!("MACHINERY-FAILURE: {msg}");
    println!("MACHINERY-FAILURE: {msg}");
    std::process::exit(2)
}

#[derive(Clone, Debug)]
pub struct Finding {
    pub property: String,
    pub status: String, // "known" | "fixed"
    pub pattern: String,
    pub what: String,
    pub commit: Option<String>,
}

/// Known findings are read from the committed file and never written at run time.
pub fn load_findings(property: &str) -> Vec<Finding> {
    let p = verif_root().join("known_findings.json");
    let Ok(txt) = std::fs::read_to_string(&p) else {
        return vec![];
    };
    let v: Value = serde_json::from_str(&txt)
        .unwrap_or_else(|e| machinery_failure(&format!("known_findings.json unreadable: {e}")));
    let mut out = vec![];
    for e in v["findings"].as_array().cloned().unwrap_or_default() {
        if e["property"].as_str() != Some(property) {
            continue;
        }
        out.push(Finding {
            property: property.to_string(),
            status: e["status"].as_str().unwrap_or("known").to_string(),
            pattern: e["signature"].as_str().unwrap_or("").to_string(),
            what: e["what"].as_str().unwrap_or("").to_string(),
            commit: e["commit"].as_str().map(|s| s.to_string()),
        });
    }
    out
}

/// `*` in a pattern matches any run of characters; everything else is literal.
pub fn glob_match(pat: &str, s: &str) -> bool {
    let parts: Vec<&str> = pat.split('*').collect();
    if parts.len() == 1 {
        return pat == s;
    }
    let mut pos = 0usize;
    for (i, part) in parts.iter().enumerate() {
        if i == 0 {
            if !s.starts_with(part) {
                return false;
            }
            pos = part.len();
        } else if i == parts.len() - 1 {
            return s.len() >= pos + part.len() && s[pos..].ends_with(part);
        } else {
            match s[pos..].find(part) {
                Some(k) => pos += k + part.len(),
                None => return false,
            }
        }
    }
    true
}

#[derive(Clone, Debug)]
pub struct Violation {
    /// Structural signature of the minimised counterexample; matched against known findings.
    pub signature: String,
    /// Human-readable description.
    pub detail: String,
    /// Replayable artefact (history / input / schedule).
    pub replay: Value,
}

pub struct Report {
    pub property: String,
    pub tier: Tier,
    pub seed: u64,
    pub level: String,
    start: Instant,
    violations: Vec<Violation>,
    pub coverage: BTreeMap<String, Value>,
    pub assumptions: Vec<String>,
    samples: Vec<Value>,
    max_violations_kept: usize,
    total_violations: u64,
}

impl Report {
    pub fn new(property: &str, cli: &Cli, level: &str) -> Self {
        Report {
            property: property.to_string(),
            tier: cli.tier,
            seed: cli.seed,
            level: level.to_string(),
            start: Instant::now(),
            violations: vec![],
            coverage: BTreeMap::new(),
            assumptions: vec![],
            samples: vec![],
            max_violations_kept: 2000,
            total_violations: 0,
        }
    }
    pub fn set(&mut self, k: &str, v: impl Into<Value>) {
        self.coverage.insert(k.to_string(), v.into());
    }
    pub fn add(&mut self, k: &str, n: u64) {
        let cur = self.coverage.get(k).and_then(|v| v.as_u64()).unwrap_or(0);
        self.coverage.insert(k.to_string(), json!(cur + n));
    }
    pub fn get(&self, k: &str) -> u64 {
        self.coverage.get(k).and_then(|v| v.as_u64()).unwrap_or(0)
    }
    pub fn sample(&mut self, v: Value) {
        if self.samples.len() < 12 {
            self.samples.push(v);
        }
    }
    pub fn assume(&mut self, s: &str) {
        if !self.assumptions.iter().any(|a| a == s) {
            self.assumptions.push(s.to_string());
        }
    }
    pub fn violation(&mut self, v: Violation) {
        self.total_violations += 1;
        if self.violations.len() < self.max_violations_kept {
            self.violations.push(v);
        }
    }
    pub fn violation_count(&self) -> u64 {
        self.total_violations
    }

    /// Classify violations against known findings, print verdict lines, write evidence,
    /// and return the process exit code.
    pub fn finish(mut self) -> i32 {
        let findings = load_findings(&self.property);
        let mut known_hits: BTreeMap<usize, u64> = BTreeMap::new();
        let mut unlisted: Vec<&Violation> = vec![];
        for v in &self.violations {
            let mut hit = None;
            for (i, f) in findings.iter().enumerate() {
                if f.status == "known" && glob_match(&f.pattern, &v.signature) {
                    hit = Some(i);
                    break;
                }
            }
            match hit {
                Some(i) => *known_hits.entry(i).or_default() += 1,
                None => unlisted.push(v),
            }
        }
        for (i, n) in &known_hits {
            let f = &findings[*i];
            println!(
                "KNOWN-FINDING: property={} {} [signature={} hits={}]",
                self.property, f.what, f.pattern, n
            );
        }
        let _ = std::fs::remove_file(
            verif_root().join("replays").join(&self.property).join(format!("{}-all-violations.txt", self.tier.name())),
        );
        if !self.violations.is_empty() {
            let _ = std::fs::create_dir_all(verif_root().join("replays").join(&self.property));
            let all: Vec<String> = self.violations.iter().map(|v| format!("{}\t{}", v.signature, truncate(&v.detail, 300))).collect();
            let _ = std::fs::write(
                verif_root().join("replays").join(&self.property).join(format!("{}-all-violations.txt", self.tier.name())),
                all.join("\n"),
            );
        }
        // Distinct unlisted signatures, first (= smallest, enumeration is simplest-first) of each.
        let mut seen: Vec<String> = vec![];
        let dir = verif_root().join("replays").join(&self.property);
        let mut unlisted_sigs = vec![];
        // Order: first one representative per violation class (signature up to its second ';'),
        // then the rest, so the capped list of replay files is as diverse as possible.
        let class_of = |s: &str| s.splitn(3, ';').take(2).collect::<Vec<_>>().join(";");
        let mut ordered: Vec<&Violation> = vec![];
        let mut classes: Vec<String> = vec![];
        for v in &unlisted {
            let c = class_of(&v.signature);
            if !classes.contains(&c) {
                classes.push(c);
                ordered.push(v);
            }
        }
        for v in &unlisted {
            if !ordered.iter().any(|o| std::ptr::eq(*o, *v)) {
                ordered.push(v);
            }
        }
        for v in &ordered {
            if seen.contains(&v.signature) {
                continue;
            }
            seen.push(v.signature.clone());
            let _ = std::fs::create_dir_all(&dir);
            let fname = format!(
                "{}-{}.json",
                self.tier.name(),
                sanitize(&v.signature)
            );
            let path = dir.join(fname);
            let body = json!({
                "property": self.property,
                "signature": v.signature,
                "detail": v.detail,
                "replay": v.replay,
            });
            let _ = std::fs::write(&path, serde_json::to_string_pretty(&body).unwrap());
            println!("VIOLATION property={} replay={}", self.property, path.display());
            println!("  signature: {}", v.signature);
            println!("  detail: {}", truncate(&v.detail, 600));
            unlisted_sigs.push(v.signature.clone());
            if seen.len() >= 40 {
                println!("  (further distinct violations suppressed)");
                break;
            }
        }
        let wall = self.start.elapsed().as_secs_f64();
        self.coverage
            .insert("samples".into(), Value::Array(self.samples.clone()));
        self.coverage.insert(
            "known_finding_hits".into(),
            json!(known_hits
                .iter()
                .map(|(i, n)| json!({"signature": findings[*i].pattern, "hits": n}))
                .collect::<Vec<_>>()),
        );
        self.coverage
            .insert("unlisted_violation_signatures".into(), json!(unlisted_sigs));
        let ev = json!({
            "property_id": self.property,
            "tier": self.tier.name(),
            "seed": self.seed,
            "level": self.level,
            "coverage": self.coverage,
            "assumptions": self.assumptions,
            "wall_s": wall,
            "violations": unlisted.len(),
        });
        let evdir = verif_root().join("evidence");
        let _ = std::fs::create_dir_all(&evdir);
        let path = evdir.join(format!("{}.json", self.property));
        if let Err(e) = std::fs::write(&path, serde_json::to_string_pretty(&ev).unwrap()) {
            machinery_failure(&format!("cannot write evidence {}: {e}", path.display()));
        }
        println!(
            "{} tier={} wall={:.1}s violations_unlisted={} known_hits={} evidence={}",
            self.property,
            self.tier.name(),
            wall,
            unlisted.len(),
            known_hits.values().sum::<u64>(),
            path.display()
        );
        if unlisted.is_empty() { 0 } else { 1 }
    }
}

pub fn sanitize(s: &str) -> String {
    let mut o: String = s
        .chars()
        .map(|c| if c.is_ascii_alphanumeric() || c == '-' || c == '_' || c == '.' { c } else { '_' })
        .collect();
    if o.len() > 120 {
        // keep it a valid file name but unique
        let h = fnv1a(s.as_bytes());
        o.truncate(100);
        o.push_str(&format!("-{h:016x}"));
    }
    o
}

pub fn truncate(s: &str, n: usize) -> String {
    if s.len() <= n {
        s.to_string()
    } else {
        let mut k = n;
        while !s.is_char_boundary(k) {
            k -= 1;
        }
        format!("{}…", &s[..k])
    }
}

pub fn fnv1a(b: &[u8]) -> u64 {
    let mut h: u64 = 0xcbf29ce484222325;
    for x in b {
        h ^= *x as u64;
        h = h.wrapping_mul(0x100000001b3);
    }
    h
}

pub fn hex(b: &[u8]) -> String {
    let mut s = String::with_capacity(b.len() * 2);
    for x in b {
        s.push_str(&format!("{x:02x}"));
    }
    s
}

pub fn unhex(s: &str) -> Vec<u8> {
    (0..s.len() / 2)
        .map(|i| u8::from_str_radix(&s[2 * i..2 * i + 2], 16).unwrap_or(0))
        .collect()
}

/// Runs `f` with panics caught; returns Err(panic message + location) on panic.
pub fn catch<R>(f: impl FnOnce() -> R + std::panic::UnwindSafe) -> Result<R, String> {
    match std::panic::catch_unwind(f) {
        Ok(r) => Ok(r),
        Err(e) => {
            let msg = if let Some(s) = e.downcast_ref::<&str>() {
                s.to_string()
            } else if let Some(s) = e.downcast_ref::<String>() {
                s.clone()
            } else {
                "non-string panic".to_string()
            };
            let loc = LAST_PANIC_LOC.with(|l| l.borrow().clone());
            let loc = loc.rsplit(" @ ").next().unwrap_or("").to_string();
            Err(format!("{msg} @ {loc}"))
        }
    }
}

thread_local! {
    pub static LAST_PANIC_LOC: std::cell::RefCell<String> = std::cell::RefCell::new(String::new());
}

/// Installs a quiet panic hook that records the location of the last panic per thread
/// and counts panics process-wide.
pub static PANIC_COUNT: std::sync::atomic::AtomicU64 = std::sync::atomic::AtomicU64::new(0);
pub static LAST_PANIC_GLOBAL: std::sync::Mutex<String> = std::sync::Mutex::new(String::new());

pub fn install_quiet_panic_hook() {
    std::panic::set_hook(Box::new(|info| {
        PANIC_COUNT.fetch_add(1, std::sync::atomic::Ordering::SeqCst);
        let loc = info
            .location()
            .map(|l| format!("{}:{}", l.file(), l.line()))
            .unwrap_or_default();
        let msg = if let Some(s) = info.payload().downcast_ref::<&str>() {
            s.to_string()
        } else if let Some(s) = info.payload().downcast_ref::<String>() {
            s.clone()
        } else {
            String::new()
        };
        LAST_PANIC_LOC.with(|l| *l.borrow_mut() = format!("{msg} @ {loc}"));
        if let Ok(mut g) = LAST_PANIC_GLOBAL.lock() {
            *g = format!("{msg} @ {loc}");
        }
    }));
}

/// Normalises a panic description into a stable class: numbers replaced by '#', registry paths
/// reduced to the file name.
pub fn panic_class(desc: &str) -> String {
    let (msg, loc) = match desc.rsplit_once(" @ ") {
        Some((m, l)) => (m, l),
        None => (desc, ""),
    };
    let file = loc.rsplit('/').next().unwrap_or(loc).split(':').next().unwrap_or("");
    let mut m = String::new();
    let mut last_hash = false;
    for c in msg.chars() {
        if c.is_ascii_digit() {
            if !last_hash {
                m.push('#');
                last_hash = true;
            }
        } else {
            m.push(c);
            last_hash = false;
        }
    }
    format!("{}@{}", truncate(&m, 80), file)
}
