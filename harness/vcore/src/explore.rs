//! Deviation-bounded exploration of choice sequences (iterative context bounding,
//! transplanted to environment answers).
//!
//! An *execution* is a function from a `Chooser` to an observation. At each choice point
//! the execution asks `chooser.choose(n_alternatives, label)`; answer 0 is the default
//! environment answer (deliver now, unmodified). The explorer enumerates every choice
//! sequence with at most `bound` non-default answers.

#[derive(Clone, Debug, Default)]
pub struct Chooser {
    /// Explicit (point index, choice) deviations; every other point answers 0.
    pub deviations: Vec<(usize, usize)>,
    /// Trace of (n_alternatives, label) at every point reached in this execution.
    pub points: Vec<(usize, String)>,
    pub error: Option<String>,
}

impl Chooser {
    pub fn new(deviations: Vec<(usize, usize)>) -> Self {
        Chooser { deviations, points: vec![], error: None }
    }
    pub fn choose(&mut self, n: usize, label: impl FnOnce() -> String) -> usize {
        let idx = self.points.len();
        self.points.push((n, label()));
        for (p, c) in &self.deviations {
            if *p == idx {
                if *c >= n {
                    self.error = Some(format!(
                        "replay divergence: point {idx} has {n} alternatives, prefix asks for {c}"
                    ));
                    return 0;
                }
                return *c;
            }
        }
        0
    }
    /// Deviation points that were never reached are a replay divergence as well.
    pub fn check_all_reached(&mut self) {
        for (p, _) in &self.deviations {
            if *p >= self.points.len() && self.error.is_none() {
                self.error = Some(format!(
                    "replay divergence: deviation point {p} never reached ({} points)",
                    self.points.len()
                ));
            }
        }
    }
}

/// Enumerate all deviation sets of size <= bound. `run` executes one history and returns the
/// list of (n_alternatives) per point it reached (from `Chooser::points`). Children of a
/// history deviate at points strictly after its last deviation, so each set is visited once.
/// Returns all histories (deviation lists) in BFS order by number of deviations.
pub fn frontier_children(
    parent: &[(usize, usize)],
    points: &[(usize, String)],
) -> Vec<Vec<(usize, usize)>> {
    let start = parent.last().map(|(p, _)| p + 1).unwrap_or(0);
    let mut out = vec![];
    for i in start..points.len() {
        for alt in 1..points[i].0 {
            let mut d = parent.to_vec();
            d.push((i, alt));
            out.push(d);
        }
    }
    out
}
