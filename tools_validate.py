#!/usr/bin/env python3
"""Validate MANIFEST.json and every evidence file against the schemas (run with python3-vt)."""
import json, sys, glob, jsonschema
ok = True
m = json.load(open('/verif/MANIFEST.json'))
try:
    jsonschema.validate(m, json.load(open('/root/.vp/MANIFEST.schema.json'))); print('MANIFEST ok')
except Exception as e:
    ok = False; print('MANIFEST INVALID', e)
props = [json.loads(l)['id'] for l in open('/verif/properties.jsonl')]
claimed = [c['property_id'] for c in m['checks']]
na = [c['property_id'] for c in m.get('not_applicable', [])]
for p in props:
    if (p in claimed) == (p in na):
        ok = False; print('property', p, 'must be exactly one of claimed / not_applicable')
es = json.load(open('/root/.vp/EVIDENCE.schema.json'))
for c in m['checks']:
    f = c['evidence_file']
    try:
        e = json.load(open(f)); jsonschema.validate(e, es)
        assert e['level'] == c['level_claimed']['category'], 'level mismatch'
        print('evidence ok', f, e['tier'], e['coverage'].get('states') or e['coverage'].get('evaluations'))
    except Exception as ex:
        ok = False; print('EVIDENCE INVALID', f, str(ex)[:300])
sys.exit(0 if ok else 1)
