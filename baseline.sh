#!/usr/bin/env bash
# Runs the repository's pinned baseline suite with the verification guard OFF and compares
# with /root/.vp/BASELINE.json (every stable test must pass). Usage: baseline.sh [repo_dir]
set -u
REPO="${1:-/repo}"
export CARGO_NET_OFFLINE=true
cd "$REPO" || exit 2
unset RUSTFLAGS
TD="${BASELINE_TARGET_DIR:-$REPO/target}"
export CARGO_TARGET_DIR="$TD"
rm -f "$TD/nextest/pb/junit.xml"
cargo nextest run --workspace --no-fail-fast --tool-config-file pb:/w/lib/nextest.toml --profile pb --test-threads 8 --offline >"/tmp/baseline.$$.log" 2>&1
J="$TD/nextest/pb/junit.xml"
python3 - "$J" <<'PY'
import json, sys, xml.etree.ElementTree as ET
base = json.load(open('/root/.vp/BASELINE.json'))
stable = set(base['stable_pass'])
passed, failed = set(), set()
try:
    root = ET.parse(sys.argv[1]).getroot()
except Exception as e:
    print("baseline: cannot parse junit:", e); sys.exit(2)
for tc in root.iter('testcase'):
    tid = (tc.get('classname') or '') + '::' + (tc.get('name') or '')
    if tc.find('failure') is not None or tc.find('error') is not None or tc.find('flakyFailure') is not None or tc.find('rerunFailure') is not None:
        failed.add(tid)
    elif tc.find('skipped') is None:
        passed.add(tid)
passed -= failed
missing = sorted(stable - passed)
print(f"baseline: stable={len(stable)} passed_of_stable={len(stable & passed)} failed_total={len(failed)}")
for m in missing[:40]:
    print("  NOT PASSING:", m)
sys.exit(0 if not missing else 1)
PY
rc=$?
[ $rc -ne 0 ] && tail -30 "/tmp/baseline.$$.log"
rm -f "/tmp/baseline.$$.log"
exit $rc
